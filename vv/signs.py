"""E-S: sign / constant-set abstract interpretation of MIR bodies (real-number semantics: NaN, overflow to infinity and
underflow to zero are NOT modelled — every rule built on it says so).

Abstract values
  ("n", S, C, vn)    number: S subset of {'-','0','+'}, C frozenset of literal values or None, vn = value number (copies share it)
  ("rel0", vn, op)   bool: <value vn> op 0          ("dcmp0", vn) discriminant of  cmp(<value vn>, 0)  (Ordering)
  ("cmp0", vn)       Ordering of cmp(<value vn>, 0)
  ("ref", l) / ("refv", v)   reference to a whole local / to an abstract value
  ("agg", name, [v..])       tuple / struct / enum-variant aggregate;  ("opt", v) any Option-like wrapper carrying v
  ("unk", ty)        unknown value of static type ty
Flow-sensitive fixpoint over the CFG with refinement on switch edges (x == 0, x < 0, cmp(x, 0) ...)."""
import re

from . import mir

TOP = frozenset("-0+")
POS = frozenset("+")
NEG = frozenset("-")
ZERO = frozenset("0")
NONNEG = frozenset("0+")
NONPOS = frozenset("-0")
NONZERO = frozenset("-+")
UNSIGNED = ("usize", "u8", "u16", "u32", "u64", "u128")
SIGNED = ("isize", "i8", "i16", "i32", "i64", "i128", "f64", "f32")
MAXC = 24


def sign_of(x):
    return "+" if x > 0 else ("-" if x < 0 else "0")


def num(S, C=None, vn=None):
    if C is not None:
        if len(C) > MAXC or not C:
            C = None
        else:
            C = frozenset(C)
            S = frozenset(sign_of(c) for c in C)
    return ("n", frozenset(S), C, vn)


def const_num(x, vn=None):
    return num(sign_of(x), {x}, vn)


def default_for_type(ty):
    ty = (ty or "").strip()
    if ty in UNSIGNED:
        return num(NONNEG)
    if ty in SIGNED:
        return num(TOP)
    return None


def as_num(v):
    if v and v[0] == "n":
        return v
    if v and v[0] == "unk":
        d = default_for_type(v[1])
        if d:
            return d
    if v and v[0] == "refv":
        return as_num(v[1])
    return num(TOP)


_CONST_RE = re.compile(r"^(-?(?:[0-9][0-9_]*\.?[0-9]*(?:[eE][-+]?[0-9]+)?|inf|NaN))_?(f64|f32|usize|isize|[iu](?:8|16|32|64|128))$")


def parse_const(o):
    """literal operand -> python number or None"""
    if "v" in o:
        try:
            return float(o["v"]) if o.get("ty") in ("f64", "f32") else (int(o["v"]) if o["v"] not in ("true", "false") else None)
        except ValueError:
            return None
    m = _CONST_RE.match(o.get("c", ""))
    if not m:
        return None
    txt, ty = m.group(1).replace("_", ""), m.group(2)
    try:
        return float(txt) if ty in ("f64", "f32") else int(float(txt))
    except ValueError:
        return None


# ---- sign arithmetic ----------------------------------------------------------------------------
def _neg(S):
    return frozenset({"-": "+", "+": "-", "0": "0"}[s] for s in S)


def _add(A, B):
    out = set()
    for a in A:
        for b in B:
            if a == "0":
                out.add(b)
            elif b == "0":
                out.add(a)
            elif a == b:
                out.add(a)
            else:
                out |= TOP
    return frozenset(out)


def _mul(A, B):
    out = set()
    for a in A:
        for b in B:
            if a == "0" or b == "0":
                out.add("0")
            else:
                out.add("+" if a == b else "-")
    return frozenset(out)


def _div(A, B):
    """B must not contain 0 (caller records the hazard)"""
    return _mul(A, frozenset(B - ZERO) or TOP)


def _cbin(op, ca, cb):
    if ca is None or cb is None or len(ca) * len(cb) > MAXC * 2:
        return None
    out = set()
    for a in ca:
        for b in cb:
            try:
                if op == "Add":
                    out.add(a + b)
                elif op == "Sub":
                    out.add(a - b)
                elif op == "Mul":
                    out.add(a * b)
                elif op == "Div":
                    if b == 0:
                        return None
                    out.add(a / b if isinstance(a, float) or isinstance(b, float) else a // b)
                else:
                    return None
            except (OverflowError, ZeroDivisionError):
                return None
    return out


def join(a, b):
    if a is None:
        return b
    if b is None:
        return a
    if a == b:
        return a
    # a short-circuit `c || (x op 0)` / `c && (x op 0)` materialised in a bool: the join of a literal bool and a comparison keeps the comparison,
    # remembering which truth value can also come from the literal (no refinement is possible on that edge)
    for x, y in ((a, b), (b, a)):
        if x[0] == "bool" and y[0] == "rel0":
            extra = y[3] if len(y) > 3 else None
            if extra is None or extra == x[1]:
                return ("rel0", y[1], y[2], x[1])
            return ("unk", "bool")
    if a[0] == "rel0" and b[0] == "rel0" and a[1:3] == b[1:3]:
        ea, eb = (a[3] if len(a) > 3 else None), (b[3] if len(b) > 3 else None)
        if ea is None or eb is None or ea == eb:
            return ("rel0", a[1], a[2], ea if ea is not None else eb) if (ea is not None or eb is not None) else a
        return ("unk", "bool")
    if a[0] == "n" and b[0] == "n":
        C = (a[2] | b[2]) if (a[2] is not None and b[2] is not None) else None
        vn = a[3] if a[3] == b[3] else None
        return num(a[1] | b[1], C, vn)
    if a[0] == b[0] == "opt":
        return ("opt", join(a[1], b[1]))
    if a[0] == b[0] == "agg" and a[1] == b[1] and len(a[2]) == len(b[2]):
        return ("agg", a[1], [join(x, y) for x, y in zip(a[2], b[2])])
    if a[0] == b[0] == "refv":
        return ("refv", join(a[1], b[1]))
    if a[0] == "unk" and b[0] == "unk" and a[1] == b[1]:
        return a
    if a[0] == "n" or b[0] == "n":
        return join(as_num(a), as_num(b))
    return ("unk", None)


OPSETS = {"Eq": ZERO, "Ne": NONZERO, "Lt": NEG, "Le": NONPOS, "Gt": POS, "Ge": NONNEG}
NEGATE = {"Eq": "Ne", "Ne": "Eq", "Lt": "Ge", "Ge": "Lt", "Gt": "Le", "Le": "Gt"}
FLIP = {"Eq": "Eq", "Ne": "Ne", "Lt": "Gt", "Gt": "Lt", "Le": "Ge", "Ge": "Le"}


class Hazard:
    def __init__(self, kind, fid, ln, detail):
        self.kind, self.fid, self.ln, self.detail = kind, fid, ln, detail


class Analysis:
    """per-function result: block-entry environments, return value, hazards, observed call arguments, field stores"""

    def __init__(self):
        self.ret = None
        self.hazards = []
        self.calls = []      # (callee, [abstract args], ln)
        self.stores = []     # ((adt, field), abstract value, ln)
        self.aggs = []       # (name, field names, [abstract values], ln)


class Engine:
    def __init__(self, F, invariants=None, call_models=None, max_depth=6):
        self.F = F
        self.inv = invariants or {}          # (adt, field) -> abstract number assumed on every read
        self.models = call_models or {}      # callee suffix -> f(engine, args) -> value
        self.summaries = {}
        self.max_depth = max_depth
        self._stack = []

    # -- summaries ---------------------------------------------------------------------------------
    def summary(self, fid):
        if fid in self.summaries:
            return self.summaries[fid]
        if fid in self._stack or len(self._stack) >= self.max_depth or fid not in self.F.fns:
            return None
        self._stack.append(fid)
        try:
            a = self.analyse(fid)
        finally:
            self._stack.pop()
        self.summaries[fid] = a
        return a

    # -- helpers -----------------------------------------------------------------------------------
    def _field_ty(self, adt, name):
        ad = self.F.adts.get(adt)
        if not ad:
            return None
        for v in ad["v"]:
            for f in v["f"]:
                if f["n"] == name:
                    return f["ty"]
        return None

    def _read(self, fn, env, place):
        l = place["l"]
        v = env.get(l)
        if v is None:
            v = ("unk", fn["locals"][l] if l < len(fn["locals"]) else None)
        for i, p in enumerate(place["p"]):
            if p == "*":
                if v[0] == "ref":
                    v = env.get(v[1]) or ("unk", fn["locals"][v[1]])
                elif v[0] == "refv":
                    v = v[1]
                elif v[0] == "unk" and v[1] and v[1].startswith("&"):
                    v = ("unk", v[1].lstrip("&").replace("mut ", "", 1).strip())
                elif v[0] == "unk" and v[1] and v[1].startswith(("alloc::boxed::Box<", "alloc::sync::Arc<")):
                    v = ("unk", v[1].split("<", 1)[1].rsplit(">", 1)[0])
                else:
                    v = ("unk", None)
            elif isinstance(p, list) and p[0] == "f":
                adt, name, idx = p[1], p[2], p[3]
                if ("fld", adt, name) in env and i == len(place["p"]) - 1:
                    v = env[("fld", adt, name)]
                elif (adt, name) in self.inv:
                    v = self.inv[(adt, name)]
                elif v[0] == "agg" and idx < len(v[2]):
                    v = v[2][idx]
                elif v[0] == "opt" and idx == 0:
                    v = v[1]
                else:
                    ty = self._field_ty(adt, name)
                    if ty is None and fn["kind"] == "Closure" and l == 1 and i <= 1 and idx < len(fn.get("upvars", [])):
                        ty = fn["upvars"][idx][1]
                    v = ("unk", ty)
            elif isinstance(p, list) and p[0] == "d":
                pass
            else:
                v = ("unk", None)
        return v

    def _operand(self, fn, env, o, site):
        if mir.is_place(o):
            return self._read(fn, env, o)
        if mir.is_fnconst(o):
            return ("fn", o["fn"])
        if mir.is_const(o):
            c = o.get("c", "")
            if c.startswith("promoted["):
                pf = self.F.fns.get(fn["id"].split("::promoted[")[0] + "::" + c)
                if pf:
                    a = self.summary(pf["id"])
                    if a and a.ret:
                        return a.ret
                return ("unk", o.get("ty"))
            x = parse_const(o)
            if x is not None and x == x:
                return const_num(x, ("c", site))
            if c in ("true", "false"):
                return ("bool", c == "true")
            return ("unk", o.get("ty"))
        return ("unk", None)

    def _bin(self, fid, op, ty, a, b, site, ln, an):
        if op in OPSETS:
            na, nb = as_num(a), as_num(b)
            if nb[2] == frozenset({0}) or nb[2] == frozenset({0.0}):
                if na[1] <= OPSETS[op]:
                    return ("bool", True)           # the sign of the value already decides the test (`job_count() == 0` with job_count = 0): a helper returning it answers a constant
                if not (na[1] & OPSETS[op]):
                    return ("bool", False)
                if na[3] is not None:
                    return ("rel0", na[3], op)
            if na[2] == frozenset({0}) or na[2] == frozenset({0.0}):
                if nb[1] <= OPSETS[FLIP[op]]:
                    return ("bool", True)
                if not (nb[1] & OPSETS[FLIP[op]]):
                    return ("bool", False)
                if nb[3] is not None:
                    return ("rel0", nb[3], FLIP[op])
            return ("unk", "bool")
        base = op.replace("WithOverflow", "").replace("Unchecked", "")
        na, nb = as_num(a), as_num(b)
        C = _cbin(base, na[2], nb[2])
        if base == "Add":
            S = _add(na[1], nb[1])
        elif base == "Sub":
            S = _add(na[1], _neg(nb[1]))
            if ty in UNSIGNED:
                S = frozenset(S & NONNEG) or NONNEG   # unsigned subtraction panics (debug) / wraps below zero; never negative
        elif base == "Mul":
            S = _mul(na[1], nb[1])
        elif base == "Div":
            if "0" in nb[1]:
                an.hazards.append(Hazard("div-by-zero", fid, ln, f"divisor may be zero ({''.join(sorted(nb[1]))})"))
            S = _div(na[1], nb[1])
            if ty in UNSIGNED or ty in ("isize", "i8", "i16", "i32", "i64", "i128"):
                S = frozenset(S | ZERO) if ("+" in S or "-" in S) else S   # integer division truncates
        elif base == "Rem":
            S = frozenset(na[1] | ZERO)
        else:
            S = NONNEG if ty in UNSIGNED else TOP
        if ty in UNSIGNED:
            S = frozenset(S & NONNEG) or NONNEG
        r = num(S, C, ("v", site))
        if op.endswith("WithOverflow"):
            return ("agg", "<tuple>", [r, ("unk", "bool")])
        return r

    def _refine(self, env, vn, allowed):
        """restrict every local holding value number vn to `allowed`; None if infeasible"""
        out = dict(env)
        for l, v in env.items():
            if v and v[0] == "n" and v[3] == vn:
                S = v[1] & allowed
                if not S:
                    return None
                C = frozenset(c for c in v[2] if sign_of(c) in S) if v[2] is not None else None
                out[l] = num(S, C, vn)
        if isinstance(vn, tuple) and vn and vn[0] == "e":
            prev = env.get(("vnfact", vn))
            S = (prev[1] & allowed) if prev is not None and prev[0] == "n" else allowed
            if not S:
                return None
            out[("vnfact", vn)] = num(frozenset(S), None, vn)      # remembered for later calls that denote the same number
        return out

    def _edge_envs(self, fn, env, t):
        """[(target, env)] for a switch terminator with refinement"""
        v = self._operand(fn, env, t["o"], None) if mir.is_place(t["o"]) else None
        outs = []
        listed = [x for x, _ in t["tg"]]
        if v and v[0] == "rel0":
            extra = v[3] if len(v) > 3 else None       # truth value that may also come from a literal: no refinement on that edge
            for val, tb in t["tg"]:
                truth = val != 0
                op = v[2] if truth else NEGATE[v[2]]
                e = env if extra is not None and extra == truth else self._refine(env, v[1], OPSETS[op])
                if e is not None:
                    outs.append((tb, e))
            if 0 in listed:
                e = env if extra is True else self._refine(env, v[1], OPSETS[v[2]])
            else:
                e = env
            if e is not None:
                outs.append((t["else"], e))
            return outs
        if v and v[0] == "dcmp0":
            m = {1: POS, 0: ZERO, 255: NEG, -1: NEG}
            rest = set(TOP)
            for val, tb in t["tg"]:
                if val in m:
                    rest -= m[val]
                    e = self._refine(env, v[1], m[val])
                    if e is not None:
                        outs.append((tb, e))
                else:
                    outs.append((tb, env))
            if rest:
                e = self._refine(env, v[1], frozenset(rest))
                if e is not None:
                    outs.append((t["else"], e))
            return outs
        if v and v[0] == "n":
            # switch on a number itself (`match n { 0 => .., _ => .. }`): keep the targets its abstract value allows
            S, C = v[1], v[2]
            for val, tb in t["tg"]:
                if (C is not None and val in C) or (C is None and sign_of(val) in S):
                    e = self._refine(env, v[3], frozenset(sign_of(val))) if v[3] is not None else env
                    if e is not None:
                        outs.append((tb, e))
            rest_possible = (C is not None and any(c not in listed for c in C)) or (C is None and (len(S) > 1 or not all(sign_of(x) in S for x in listed) or any(s_ != "0" for s_ in S)))
            if rest_possible:
                zero_listed = 0 in listed
                e = env
                if zero_listed and v[3] is not None:
                    e = self._refine(env, v[3], NONZERO)
                if e is not None:
                    outs.append((t["else"], e))
            return outs
        if v and v[0] == "bool":
            val = 1 if v[1] else 0
            tgt = t["else"]
            for x, tb in t["tg"]:
                if x == val:
                    tgt = tb
            return [(tgt, env)]
        return [(tb, env) for _, tb in t["tg"]] + [(t["else"], env)]

    # -- calls -------------------------------------------------------------------------------------
    def _closure_ret(self, cv):
        """abstract return of calling a closure value (upvars unknown)"""
        if cv and cv[0] == "refv":
            cv = cv[1]
        if cv and cv[0] == "agg" and "{closure" in cv[1] and cv[1] in self.F.fns:
            a = self.summary(cv[1])
            if a:
                return a.ret
        if cv and cv[0] == "fn" and cv[1] in self.F.fns:
            a = self.summary(cv[1])
            if a:
                return a.ret
        return None

    def _call(self, fid, fn, env, t, an, site):
        callee = t["callee"] or ""
        args = [self._operand(fn, env, o, (site, i)) for i, o in enumerate(t["args"])]
        an.calls.append((callee, args, t["ln"]))
        last = callee.split("::")[-1].split("<")[0]
        dty = fn["locals"][t["dest"]["l"]] if not t["dest"]["p"] else None
        vn = ("v", site)
        for suf, model in self.models.items():
            if callee.endswith(suf) or (t.get("res") or "").endswith(suf):
                return model(self, args, vn)

        def deref(v):
            if v and v[0] == "ref":
                return env.get(v[1]) or ("unk", fn["locals"][v[1]])
            if v and v[0] == "refv":
                return v[1]
            return v
        if callee in ("core::cmp::PartialEq::eq", "core::cmp::PartialEq::ne") and len(args) == 2 and any("core::cmp::Ordering" in g for g in t.get("ga", [])):
            # `x.total_cmp(&0.) == Ordering::Greater` kept in a bool: the same fact as `x > 0.`
            a, b = deref(args[0]), deref(args[1])
            if b and b[0] == "cmp0":
                a, b = b, a
            if a and a[0] == "cmp0" and b and b[0] == "agg" and "Ordering#" in str(b[1]):
                op = {"Less": "Lt", "Equal": "Eq", "Greater": "Gt"}.get(str(b[1]).split("#")[-1])
                if op:
                    return ("rel0", a[1], op if last == "eq" else NEGATE[op])
            return ("unk", "bool")
        isf = "<impl f64>" in callee or "<impl f32>" in callee
        if isf or ("<impl usize>" in callee) or ("<impl i32>" in callee) or ("<impl i64>" in callee) or callee.startswith(("core::cmp::Ord::", "core::cmp::PartialOrd::")):
            a0 = as_num(deref(args[0])) if args else num(TOP)
            a1 = as_num(deref(args[1])) if len(args) > 1 else None
            if last == "abs":
                return num(frozenset(("+" if s != "0" else "0") for s in a0[1]), {abs(c) for c in a0[2]} if a0[2] else None, vn)
            if last == "sqrt":
                if "-" in a0[1]:
                    an.hazards.append(Hazard("sqrt-negative", fid, t["ln"], "square root of a possibly negative value (NaN)"))
                return num(a0[1] & NONNEG or NONNEG, None, vn)
            if last in ("powi", "powf", "pow") and len(t["args"]) > 1:
                e = parse_const(t["args"][1]) if mir.is_const(t["args"][1]) else None
                if e is not None and float(e).is_integer() and int(e) % 2 == 0 and e > 0:
                    return num(frozenset(("+" if s != "0" else "0") for s in a0[1]), None, vn)
                if a0[1] <= NONNEG:
                    return num(a0[1] | (POS if e == 0 else frozenset()), None, vn)
                return num(TOP, None, vn)
            if last in ("exp", "exp2", "cosh"):
                return num(POS, None, vn)
            if last in ("max", "min") and a1 is not None:
                A, B = a0[1], a1[1]
                order = "-0+"
                if last == "max":
                    lo = max(min(order.index(s) for s in A), min(order.index(s) for s in B))
                    S = frozenset(s for s in A | B if order.index(s) >= lo)
                else:
                    hi = min(max(order.index(s) for s in A), max(order.index(s) for s in B))
                    S = frozenset(s for s in A | B if order.index(s) <= hi)
                C = None
                if a0[2] is not None and a1[2] is not None:
                    C = {(max if last == "max" else min)(x, y) for x in a0[2] for y in a1[2]}
                return num(S, C, vn)
            if last == "clamp" and len(args) > 2:
                lo, hi = as_num(deref(args[1])), as_num(deref(args[2]))
                S = set(a0[1])
                if lo[1] == POS:
                    S = {"+"}
                elif lo[1] <= NONNEG:
                    S = (S - {"-"}) | (set(lo[1]) if "-" in a0[1] else set())
                if hi[1] == NEG:
                    S = {"-"}
                elif hi[1] <= NONPOS:
                    S = (S - {"+"}) | (set(hi[1]) if "+" in a0[1] else set())
                return num(frozenset(S) or TOP, None, vn)
            if last in ("total_cmp", "cmp") and a1 is not None:
                if a1[2] in (frozenset({0}), frozenset({0.0})) and a0[3] is not None:
                    return ("cmp0", a0[3])
                return ("unk", "core::cmp::Ordering")
            if last == "partial_cmp" and a1 is not None:
                if a1[2] in (frozenset({0}), frozenset({0.0})) and a0[3] is not None:
                    return ("opt", ("cmp0", a0[3]))
                return ("unk", None)
            if last in ("lt", "le", "gt", "ge") and a1 is not None:
                op = {"lt": "Lt", "le": "Le", "gt": "Gt", "ge": "Ge"}[last]
                if a1[2] in (frozenset({0}), frozenset({0.0})) and a0[3] is not None:
                    return ("rel0", a0[3], op)
                if a0[2] in (frozenset({0}), frozenset({0.0})) and a1[3] is not None:
                    return ("rel0", a1[3], FLIP[op])
                return ("unk", "bool")
            if last in ("floor", "ceil", "round", "trunc"):
                S = set(a0[1])
                if last in ("floor", "round", "trunc") and "+" in S:
                    S.add("0")
                if last in ("ceil", "round", "trunc") and "-" in S:
                    S.add("0")
                return num(frozenset(S), None, vn)
            if last in ("saturating_sub",) and a1 is not None:
                return num(NONNEG if dty in UNSIGNED else TOP, None, vn)
            if last in ("is_nan", "is_finite", "is_infinite", "is_sign_negative", "is_sign_positive"):
                return ("unk", "bool")
        if last in ("clone", "to_owned", "cloned", "copied", "deref", "as_ref", "borrow", "into", "from") and args and (callee.startswith("core::") or callee.startswith("alloc::")):
            a0 = args[0]
            if last in ("clone", "to_owned") :
                return deref(a0)
            if last in ("cloned", "copied") and a0 and a0[0] == "opt":
                return ("opt", deref(a0[1]))
            return a0
        if "Option" in callee or "Result" in callee:
            a0 = args[0] if args else None
            payload = a0[1] if a0 and a0[0] == "opt" else None
            if last in ("map", "and_then") and len(args) > 1:
                r = self._closure_ret(args[1])
                if last == "and_then" and r and r[0] == "opt":
                    return r
                return ("opt", r or ("unk", None))
            if last in ("unwrap_or", "unwrap_or_default", "unwrap", "expect", "unwrap_or_else"):
                d = None
                if last == "unwrap_or" and len(args) > 1:
                    d = args[1]
                elif last == "unwrap_or_else" and len(args) > 1:
                    d = self._closure_ret(args[1])
                elif last == "unwrap_or_default":
                    d = const_num(0.0 if dty in ("f64", "f32") else 0) if dty in UNSIGNED + SIGNED else None
                if payload is None:
                    payload = ("unk", dty)
                return join(payload, d) if d is not None else payload
            if last in ("map_or", "map_or_else") and len(args) > 2:
                d = args[1] if last == "map_or" else self._closure_ret(args[1])
                r = self._closure_ret(args[2])
                if d is None or r is None:
                    return ("unk", dty)
                return join(d, r)
            if last in ("filter", "or", "or_else", "take", "as_ref", "as_mut", "copied", "cloned"):
                return a0 if a0 and a0[0] == "opt" else ("unk", dty)
        if last == "default" and callee.startswith("core::default::Default") and dty in UNSIGNED + SIGNED:
            return const_num(0.0 if dty in ("f64", "f32") else 0, vn)
        if last in ("len", "count", "size") and len(t["args"]) == 1 and dty in UNSIGNED:
            # a pure size observer of an immutable receiver: two calls on the same receiver expression denote the same number (`if s.size() == 0 { return } .. / s.size()`);
            # anything reachable through `&mut` is opaque in mir.expr, so a receiver that may have been mutated in between gets a fresh value number
            e = mir.expr(fn, t["args"][0])
            if not mir.expr_has_opaque(e) and mir.expr_has_input(e):
                vn = ("e", last, repr(e))
            S = NONNEG
            fact = env.get(("vnfact", vn))
            if fact is not None and fact[0] == "n":
                S = frozenset(S & fact[1]) or S
            return num(S, None, vn)
        if last == "len" or last == "count":
            return num(NONNEG, None, vn)
        # workspace callee with a body: context-insensitive summary
        tgt = t.get("res") or callee
        if tgt in self.F.fns and t.get("how") in ("static", "trait-resolved"):
            a = self.summary(tgt)
            if a and a.ret is not None:
                r = a.ret
                if r[0] == "n":
                    return num(r[1], r[2], vn)
                return r
        d = default_for_type(dty)
        if d:
            return num(d[1], None, vn)
        return ("unk", dty)

    # -- the fixpoint ------------------------------------------------------------------------------
    def analyse(self, fid, arg_vals=None):
        fn = self.F.fns[fid]
        an = Analysis()
        bbs = fn["bbs"]
        init = {}
        for i in range(1, fn["argc"] + 1):
            if arg_vals and i in arg_vals:
                init[i] = arg_vals[i]
            else:
                d = default_for_type(fn["locals"][i])
                init[i] = num(d[1], None, ("arg", i)) if d else ("unk", fn["locals"][i])
        entry = {0: init}
        work = [0]
        rounds = 0
        rets = []
        final_pass = False
        while True:
            while work:
                rounds += 1
                if rounds > 4000:
                    an.hazards.append(Hazard("no-fixpoint", fid, None, "analysis did not converge"))
                    work = []
                    break
                b = work.pop()
                env = dict(entry[b])
                outs = self._transfer(fid, fn, b, env, an if final_pass else Analysis(), rets if final_pass else [])
                for tb, e in outs:
                    old = entry.get(tb)
                    if old is None:
                        entry[tb] = e
                        if not final_pass:
                            work.append(tb)
                    else:
                        new = {}
                        for l in set(old) | set(e):
                            new[l] = join(old.get(l), e.get(l)) if (l in old and l in e) else None
                        new = {l: v for l, v in new.items() if v is not None}
                        if new != old:
                            entry[tb] = new
                            if not final_pass:
                                work.append(tb)
            if final_pass:
                break
            final_pass = True
            work = sorted(entry, reverse=True)     # one recording pass over the stable environments
        r = None
        for v in rets:
            r = join(r, v)
        an.ret = r
        an.entry = entry
        return an

    def _transfer(self, fid, fn, b, env, an, rets):
        bb = fn["bbs"][b]
        for si, s in enumerate(bb["s"]):
            rv = s["r"]
            k = rv["k"]
            site = (fid, b, si)
            if k == "use":
                v = self._operand(fn, env, rv["o"][0], site)
            elif k in ("ref", "raw"):
                pl = rv["o"][0]
                if mir.is_place(pl) and not pl["p"]:
                    v = ("ref", pl["l"])
                else:
                    v = ("refv", self._operand(fn, env, pl, site))
            elif k == "cast":
                x = self._operand(fn, env, rv["o"][0], site)
                ty = rv.get("ty", "")
                ck = rv.get("ck", "")
                if ty in UNSIGNED + SIGNED and (x[0] == "n" or (x[0] == "unk" and default_for_type(x[1]))):
                    nx = as_num(x)
                    S = set(nx[1])
                    if "FloatToInt" in ck:
                        if "+" in S or "-" in S:
                            S.add("0")
                    if ty in UNSIGNED:
                        S = (S - {"-"}) | ({"0"} if "-" in nx[1] and "FloatToInt" in ck else (set("0+") if "-" in nx[1] else set()))
                    C = None
                    if nx[2] is not None and "IntToFloat" in ck:
                        C = {float(c) for c in nx[2]}
                    elif nx[2] is not None and "IntToInt" in ck and all(c >= 0 for c in nx[2]):
                        C = set(nx[2])
                    v = num(frozenset(S) or TOP, C, nx[3] if "IntToFloat" in ck or "IntToInt" in ck and ty not in UNSIGNED or (nx[1] <= NONNEG) else ("v", site))
                else:
                    v = x if ck.startswith("PointerCoercion") or "Transmute" in ck else ("unk", ty)
            elif k == "bin":
                a = self._operand(fn, env, rv["o"][0], (site, 0))
                c = self._operand(fn, env, rv["o"][1], (site, 1))
                v = self._bin(fid, rv["op"], rv.get("ty", ""), a, c, site, s.get("ln"), an)
            elif k == "un":
                x = self._operand(fn, env, rv["o"][0], site)
                if rv.get("op") == "Neg":
                    nx = as_num(x)
                    v = num(_neg(nx[1]), {-c for c in nx[2]} if nx[2] is not None else None, ("v", site))
                elif rv.get("op") == "Not" and x and x[0] == "rel0":
                    v = ("rel0", x[1], NEGATE[x[2]]) if len(x) == 3 or x[3] is None else ("rel0", x[1], NEGATE[x[2]], not x[3])
                elif rv.get("op") == "Not" and x and x[0] == "bool":
                    v = ("bool", not x[1])
                else:
                    v = ("unk", None)
            elif k == "discr":
                x = self._operand(fn, env, rv["o"][0], site)
                v = ("dcmp0", x[1]) if x and x[0] == "cmp0" else ("unk", None)
            elif k == "agg":
                vals = [self._operand(fn, env, o, (site, i)) for i, o in enumerate(rv["o"])]
                name = rv.get("n", "") or "<tuple>"
                if name.endswith("Option#Some") and vals:
                    v = ("opt", vals[0])
                elif name.endswith("Option#None"):
                    v = ("opt", None)
                else:
                    v = ("agg", name, vals)
                an.aggs.append((name, rv.get("fs") or [], vals, s.get("ln")))
            else:
                v = ("unk", None)
            d = s["d"]
            if not d["p"]:
                env[d["l"]] = v
            else:
                pf = mir.proj_fields(d)
                if pf:
                    an.stores.append((pf[-1], v, s.get("ln")))
                    if pf[-1] in self.inv and isinstance(d["p"][-1], list) and d["p"][-1][0] == "f":
                        env[("fld",) + tuple(pf[-1])] = v
                if d["p"] and not (d["p"][0] == "*"):
                    env[d["l"]] = ("unk", fn["locals"][d["l"]])
        t = bb["t"]
        k = t["k"]
        if k == "call":
            v = self._call(fid, fn, env, t, an, (fid, b, "t"))
            if any(a.startswith("&mut") for a in t.get("argtys", [])):
                for key in [x for x in env if isinstance(x, tuple) and x[0] == "fld"]:
                    del env[key]
            d = t["dest"]
            if not d["p"]:
                env[d["l"]] = v
            else:
                pf = mir.proj_fields(d)
                if pf:
                    an.stores.append((pf[-1], v, t.get("ln")))
            return [(t["tgt"], env)] if t.get("tgt") is not None and t["tgt"] >= 0 else []
        if k == "switch":
            return self._edge_envs(fn, env, t)
        if k == "ret":
            if 0 in env:
                r0 = env[0]
                if r0 and r0[0] == "ref":
                    r0 = ("refv", env.get(r0[1]) or ("unk", fn["locals"][r0[1]]))
                rets.append(r0)
            else:
                rets.append(("unk", fn["locals"][0]))
            return []
        return [(y, env) for y in mir.succs_of(bb)]


def show(v):
    if v is None:
        return "⊥"
    if v[0] == "n":
        s = "{" + ",".join(x for x in "-0+" if x in v[1]) + "}"
        if v[2] is not None:
            s += " in {" + ", ".join(repr(c) for c in sorted(v[2])) + "}"
        return s
    if v[0] == "opt":
        return "Option<" + show(v[1]) + ">"
    if v[0] == "agg":
        return v[1].split("::")[-1] + "(" + ", ".join(show(x) for x in v[2][:6]) + ")"
    if v[0] in ("refv",):
        return "&" + show(v[1])
    return v[0]
