"""python3 -m vv.selfcheck — sanity checks of the generic passes on tiny synthetic facts (run by setup_cmd)."""
import sys

from . import adt, mir


def toy_fn():
    # bb0: switch -> bb1 | bb2 ; bb1: call f -> bb3 ; bb2: goto bb3 ; bb3: ret
    return {"id": "toy", "argc": 0, "locals": ["()"], "names": {}, "bbs": [
        {"s": [], "t": {"k": "switch", "o": {"l": 1, "p": []}, "tg": [[0, 1]], "else": 2, "ln": 1}},
        {"s": [], "t": {"k": "call", "callee": "f", "ga": [], "res": "", "how": "static", "fp": None, "args": [], "argtys": [], "dest": {"l": 2, "p": []}, "tgt": 3, "ln": 2, "x": False}},
        {"s": [], "t": {"k": "goto", "tgt": 3}},
        {"s": [], "t": {"k": "ret"}},
    ]}


def main():
    fn = toy_fn()
    assert mir.succs(fn) == [[1, 2], [3], [3], []]
    assert mir.reach(fn, [0]) == {0, 1, 2, 3}
    assert 3 in mir.reach(fn, [0], blocked=[1])          # a path around the call exists
    assert 3 not in mir.reach(fn, [0], blocked=[1, 2])
    assert mir.dominates(fn, 0, 3) and not mir.dominates(fn, 1, 3)
    assert adt.controls_ok()
    print("vv.selfcheck ok")
    return 0


if __name__ == "__main__":
    sys.exit(main())
