"""TypeId-keyed any-map slot table (RouteState / SolutionState / Dimensions / Extras).
A slot is (store, key type K); the stored Rust type is fixed only by convention at each call site, so the table
records the monomorphic (K, V) of every primitive call."""
import collections
import re

from . import cg, mir
from .facts import AnchorError, strip_generics

# primitive accessor -> (store, op, level); level 'activity' stores Vec<V>
PRIMS = {
    "vrp_core::construction::heuristics::context::RouteState::get_tour_state": ("route", "get", "tour"),
    "vrp_core::construction::heuristics::context::RouteState::set_tour_state": ("route", "set", "tour"),
    "vrp_core::construction::heuristics::context::RouteState::remove_tour_state": ("route", "remove", "tour"),
    "vrp_core::construction::heuristics::context::RouteState::get_activity_state": ("route", "get", "activity"),
    "vrp_core::construction::heuristics::context::RouteState::get_activity_states": ("route", "get", "activity"),
    "vrp_core::construction::heuristics::context::RouteState::set_activity_states": ("route", "set", "activity"),
    "vrp_core::construction::heuristics::context::SolutionState::get_value": ("solution", "get", "value"),
    "vrp_core::construction::heuristics::context::SolutionState::set_value": ("solution", "set", "value"),
    "vrp_core::models::common::dimens::Dimensions::get_value": ("dimens", "get", "value"),
    "vrp_core::models::common::dimens::Dimensions::set_value": ("dimens", "set", "value"),
    "vrp_core::models::extras::Extras::get_value": ("extras", "get", "value"),
    "vrp_core::models::extras::Extras::set_value": ("extras", "set", "value"),
}

Op = collections.namedtuple("Op", "store op level key vty fid bi ln module")


def check_primitives(F):
    """Fail closed when the set of functions that use TypeId::of as a map key differs from PRIMS
    (a new any-map accessor that the table does not know)."""
    users = set()
    for fid, fn in F.fns.items():
        for bi, t in mir.calls(fn):
            if t["callee"].startswith("core::any::TypeId::of"):
                users.add(F.root_of(fid))
    unknown = users - set(PRIMS)
    missing = set(PRIMS) - users
    return unknown, missing


def ops(F):
    tab = getattr(F, "_kv_ops", None)
    if tab is not None:
        return tab
    tab = []
    for fid, fn in F.fns.items():
        for bi, t in mir.calls(fn):
            p = PRIMS.get(t["callee"])
            if not p:
                continue
            ga = t["ga"]
            if not ga:
                continue
            store, op, level = p
            key = ga[0]
            mod = F.fns[F.root_of(fid)]["module"] if F.root_of(fid) in F.fns else fn["module"]
            if _is_param(key):
                key = f"{key}@{mod}"
            v = ga[1] if len(ga) > 1 else None
            if v is not None and level == "activity":
                v = f"alloc::vec::Vec<{v}>"
            tab.append(Op(store, op, level, key, v, fid, bi, t["ln"], mod))
    F._kv_ops = tab
    return tab


def _is_param(t):
    return re.fullmatch(r"[A-Z][A-Za-z0-9]{0,2}", t) is not None


def short(key):
    if "@" in key:
        a, b = key.split("@", 1)
        return a + "@" + b.split("::")[-1]
    return key.split("::")[-1]


def norm_v(v, module):
    """type string with generic parameter names scoped to the module (same-module params with the same name are
    assumed to denote the same binding; across modules they are renamed apart)"""
    if v is None:
        return None
    return re.sub(r"(?<![A-Za-z0-9_:])([A-Z][A-Za-z0-9]{0,1})(?![A-Za-z0-9_:])", lambda m: f"{m.group(1)}@{module}", v)


def ops_in(F, fids):
    idx = getattr(F, "_kv_by_fn", None)
    if idx is None:
        idx = collections.defaultdict(list)
        for o in ops(F):
            idx[o.fid].append(o)
        F._kv_by_fn = idx
    out = []
    for f in fids:
        out.extend(idx.get(f, []))
    return out


def reach_ops(F, root, edge_filter=None, stop=None):
    """all KV ops in functions reachable from root (CHA + may-run closures); returns (ops, parent map)"""
    par = cg.reach(F, [root], stop=stop, edge_filter=edge_filter)
    return ops_in(F, par.keys()), par
